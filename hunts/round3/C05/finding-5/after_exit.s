main:
    li a0, 1
    jal ra, f
    li a7, 1
    ecall
    li a7, 10
    ecall
    addi a0, a0, 1
    addi a0, a0, 2
    addi a0, a0, 3
f:
    addi a0, a0, 1
    ret
