#!/bin/bash
# Exits non-zero when the violation of property C05 is present.
cd "$(dirname "$0")"
RVA=${RVA:-/tmp/wt5-C05/target/debug/rva}
fail=0
check() { # file lines...
    file=$1; shift
    out=$(timeout 60 "$RVA" lint "$file" --compact)
    echo "== $file: unreachable straight-line code on lines $*"
    echo "$out" | grep "Unreachable" | sed "s#$(pwd)/##"
    for line in "$@"; do
        if echo "$out" | grep -E "Unreachable line of code in .* at $line " >/dev/null; then
            echo "   line $line: reported"
        else
            echo "   line $line: VIOLATION - unreachable, but no 'Unreachable line of code' here:  $(sed -n "${line}p" $file)"
            fail=1
        fi
    done
}
echo "--- control: behind a ret every line is reported"
check after_ret.s 11 12 13
echo "--- behind the exit ecall of the program only the first line is reported"
check after_exit.s 8 9 10
echo "--- behind an ecall that is itself unreachable nothing is reported"
check behind_dead_ecall.s 11 12 13 14
exit $fail
