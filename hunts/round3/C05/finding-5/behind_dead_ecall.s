main:
    li a0, 1
    jal ra, f
    li a7, 1
    ecall
    li a7, 10
    ecall
f:
    addi a0, a0, 1
    j f_end
    li a7, 11
    ecall
    addi a0, a0, 2
    addi a0, a0, 3
f_end:
    ret
