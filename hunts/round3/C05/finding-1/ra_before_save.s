main:
    li a0, 5
    jal ra, f
    li a7, 1
    ecall
    li a7, 10
    ecall
f:
    addi sp, sp, -4
    li ra, 0
    sw ra, 0(sp)
    jal ra, g
    lw ra, 0(sp)
    addi sp, sp, 4
    ret
g:
    addi a0, a0, 1
    ret
