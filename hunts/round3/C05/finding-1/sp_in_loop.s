main:
    li a0, 3
    jal ra, f
    li a7, 1
    ecall
    li a7, 10
    ecall
f:
    addi sp, sp, -16
    sw ra, 12(sp)
    sw s0, 8(sp)
    mv s0, a0
f_loop:
    blez s0, f_done
    mv a0, s0
    jal ra, g
    addi s0, s0, -1
    li sp, 0
    j f_loop
f_done:
    lw s0, 8(sp)
    lw ra, 12(sp)
    addi sp, sp, 16
    ret
g:
    addi a0, a0, 1
    ret
