#!/bin/bash
# Exits non-zero when the violation of property C05 is present.
cd "$(dirname "$0")"
RVA=${RVA:-/tmp/wt5-C05/target/debug/rva}
fail=0

check() { # file injected-line pattern-to-delete-for-base
    file=$1; line=$2; pat=$3
    base=$(mktemp /tmp/c05base.XXXXXX.s)
    grep -v -F "$pat" "$file" > "$base"
    nbase=$(timeout 60 "$RVA" lint "$base" --compact | grep -c .)
    rm -f "$base"
    out=$(timeout 60 "$RVA" lint "$file" --compact)
    echo "== $file (injected: line $line '$pat'; base program without it has $nbase diagnostics)"
    echo "$out" | sed "s#$(pwd)/##"
    if [ "$nbase" -ne 0 ]; then echo "   (base not clean - test is void)"; return; fi
    if echo "$out" | grep -E "(Overwrite callee-saved register|Lost register value|Invalid stack pointer|Unknown stack|Invalid stack position) in .* at $line " >/dev/null; then
        echo "   OK: a callee-saved diagnostic is located on line $line"
    else
        echo "   VIOLATION: no callee-saved / stack-pointer diagnostic is located on the offending line $line"
        fail=1
    fi
}

check ra_before_save.s 10 "li ra, 0"
check sp_in_loop.s 18 "li sp, 0"
exit $fail
