#!/bin/bash
# Exits non-zero when the violation of property C05 is present.
cd "$(dirname "$0")"
RVA=${RVA:-/tmp/wt5-C05/target/debug/rva}
fail=0
KINDS="(Invalid jump to function|Node in many functions|First instruction is function)"

echo "--- control: g falls through into f (both are functions): reported on f's label"
out=$(timeout 60 "$RVA" lint fall_from_function.s --compact); echo "$out" | sed "s#$(pwd)/##"
echo "$out" | grep -E "$KINDS in .* at (14|15) " >/dev/null && echo "   OK" || { echo "   not reported"; fail=1; }

echo "--- control: fall_from_main.s with the exit ecall in place is clean"
base=$(mktemp /tmp/c05base.XXXXXX.s)
awk 'NR==10{print "    li a7, 10"; print "    ecall"} {print}' fall_from_main.s > "$base"
nbase=$(timeout 60 "$RVA" lint "$base" --compact | grep -c .); rm -f "$base"
echo "   diagnostics: $nbase"

echo "--- the main program falls through into function f (line 10 label, line 11 first instruction)"
out=$(timeout 60 "$RVA" lint fall_from_main.s --compact); echo "$out" | sed "s#$(pwd)/##"
if echo "$out" | grep -E "$KINDS in .* at (10|11) " >/dev/null; then
    echo "   OK: entry reported"
else
    echo "   VIOLATION: entering f by fall-through is not reported (total diagnostics: $(echo -n "$out" | grep -c .))"
    fail=1
fi

echo "--- (related, same cause) main enters f by a conditional branch, line 8"
out=$(timeout 60 "$RVA" lint branch_from_main.s --compact); echo "$out" | sed "s#$(pwd)/##"
echo "   diagnostics: $(echo -n "$out" | grep -c .)"
exit $fail
