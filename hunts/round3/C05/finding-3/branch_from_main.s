main:
    li a0, 5
    jal ra, f
    li a7, 1
    ecall
    li a7, 5
    ecall
    beqz a0, f
    li a7, 10
    ecall
f:
    addi a0, a0, 1
    ret
