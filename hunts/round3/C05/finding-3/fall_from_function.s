main:
    li a0, 5
    jal ra, f
    li a7, 1
    ecall
    li a0, 6
    jal ra, g
    li a7, 1
    ecall
    li a7, 10
    ecall
g:
    addi a0, a0, 2
f:
    addi a0, a0, 1
    ret
