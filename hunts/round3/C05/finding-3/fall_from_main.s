main:
    li a0, 5
    jal ra, f
    li a7, 1
    ecall
    li a0, 6
    jal ra, g
    li a7, 1
    ecall
f:
    addi a0, a0, 1
    ret
g:
    addi sp, sp, -4
    sw ra, 0(sp)
    jal ra, f
    lw ra, 0(sp)
    addi sp, sp, 4
    ret
