main:
    li a0, 1
    jal ra, f
    li a7, 1
    ecall
    li a7, 10
    ecall
f:
    mv t0, a0
    lw a0, 0(s5)
    add a0, a0, t0
    ret
