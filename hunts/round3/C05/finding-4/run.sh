#!/bin/bash
# Exits non-zero when the violation of property C05 is present.
cd "$(dirname "$0")"
RVA=${RVA:-/tmp/wt5-C05/target/debug/rva}
fail=0
check() { # file line
    file=$1; line=$2
    out=$(timeout 60 "$RVA" lint "$file" --compact)
    echo "== $file: line $line reads s5, which function f never assigned:  $(sed -n "${line}p" $file)"
    echo "$out" | sed "s#$(pwd)/##"
    if echo "$out" | grep -E "Invalid use before assignment in .* at $line " >/dev/null; then
        echo "   OK: reported on line $line"
    else
        echo "   VIOLATION: the read of s5 on line $line is not reported"
        fail=1
    fi
}
echo "--- control: arithmetic read of s5"
check control_add.s 10
echo "--- s5 as the address of a load / store, s5 as the value stored to a global"
check load_base.s 10
check store_base.s 10
check store_value.s 14
exit $fail
