.data
buf: .word 0
.text
main:
    li a0, 1
    jal ra, f
    li a7, 1
    ecall
    li a7, 10
    ecall
f:
    la t0, buf
    sw a0, 0(t0)
    sw s5, 0(t0)
    ret
