main:
    jal ra, f
    li a7, 1
    ecall
    li a7, 10
    ecall
f:
    li a0, 4
    add a0, a0, tp
    ret
