main:
    li a0, 1
    add a0, a0, s5
    li a7, 1
    ecall
    li a0, 7
    li a7, 1
    ecall
    li a7, 10
    ecall
