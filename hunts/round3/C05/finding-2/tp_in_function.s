main:
    jal ra, f
    li a7, 1
    ecall
    li a7, 10
    ecall
f:
    li a7, 5
    ecall
    add a0, a0, tp
    ret
