main:
    li a7, 6
    ecall
    li a0, 1
    add a0, a0, t3
    li a7, 1
    ecall
    li a7, 10
    ecall
