#!/bin/bash
# Exits non-zero when the violation of property C05 is present.
cd "$(dirname "$0")"
RVA=${RVA:-/tmp/wt5-C05/target/debug/rva}
fail=0

check() { # file injected-line register
    file=$1; line=$2; reg=$3
    base=$(mktemp /tmp/c05base.XXXXXX.s)
    awk -v n="$line" 'NR!=n' "$file" > "$base"
    nbase=$(timeout 60 "$RVA" lint "$base" --compact | grep -c .)
    rm -f "$base"
    out=$(timeout 60 "$RVA" lint "$file" --compact)
    echo "== $file (injected: line $line reads the never assigned $reg; program without that line has $nbase diagnostics)"
    echo "$out" | sed "s#$(pwd)/##"
    if [ "$nbase" -ne 0 ]; then echo "   (base not clean - test is void)"; return; fi
    if echo "$out" | grep -E "(Invalid use before assignment|Invalid use after call) in .* at $line " >/dev/null; then
        echo "   OK: reported on line $line"
    else
        echo "   VIOLATION: the read of $reg on line $line is not reported"
        fail=1
    fi
}

echo "--- control: the same read in front of the ecall is reported"
check s5_before_ecall.s 3 s5
check tp_in_function_control.s 9 tp
echo "--- the read behind an ecall"
check s5_after_ecall.s 6 s5
check t3_after_ecall6.s 5 t3
check tp_in_function.s 10 tp
exit $fail
