main:
    li a0, 1
    li a7, 1
    ecall
    csrr t3, 0x42
    li a7, 10
    ecall
