#!/bin/bash
# Exits non-zero when the violation of property C05 is present.
cd "$(dirname "$0")"
RVA=${RVA:-/tmp/wt5-C05/target/debug/rva}
fail=0
check() {
    file=$1; line=$2
    out=$(timeout 60 "$RVA" lint "$file" --compact)
    echo "== $file: line $line assigns t3, which nobody reads:  $(sed -n "${line}p" $file)"
    echo "$out" | sed "s#$(pwd)/##"
    if echo "$out" | grep -E "Unused value in .* at $line " >/dev/null; then
        echo "   OK: reported on line $line"
    else
        echo "   VIOLATION: the unread assignment on line $line is not reported"
        fail=1
    fi
}
echo "--- control"; check control_dead.s 5
echo "--- CSR read into a register nobody reads"; check csr_dead.s 5
exit $fail
