main:
    li a0, 1
    li a7, 1
    ecall
    lw t3, -4(sp)
    li a7, 10
    ecall
