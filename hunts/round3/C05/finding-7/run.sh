#!/bin/bash
# Exits non-zero when the violation of property C05 is present.
cd "$(dirname "$0")"
RVA=${RVA:-/tmp/wt5-C05/target/debug/rva}
fail=0
check() {
    file=$1; line=$2; what=$3
    out=$(timeout 60 "$RVA" lint "$file" --compact)
    echo "== $file: line $line  $(sed -n "${line}p" $file)   ($what)"
    echo "$out" | sed "s#$(pwd)/##"
    if echo "$out" | grep -E "Invalid stack offset usage in .* at $line " >/dev/null; then
        echo "   OK: reported on line $line"
    else
        echo "   VIOLATION: the access on line $line is not reported"
        fail=1
    fi
}
echo "--- control"; check control.s 10 "sp = entry-8: bytes entry+0 .. entry+3"
echo "--- word store that starts 2 bytes below the entry stack pointer"
check straddle.s 10 "sp = entry-8: bytes entry-2 .. entry+1, i.e. two bytes at and above the entry sp"
exit $fail
