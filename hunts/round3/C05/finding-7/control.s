main:
    li a0, 1
    jal ra, f
    li a7, 1
    ecall
    li a7, 10
    ecall
f:
    addi sp, sp, -8
    sw a0, 8(sp)
    addi a0, a0, 1
    addi sp, sp, 8
    ret
