#!/bin/sh
# Finding 3: edges out of unreachable code survive the dead-code pass and are
# taken for ways into shared code by the 'node in many functions' lint.
# Exits non-zero when the violation is present.
cd "$(dirname "$0")" || exit 2
RVA=${RVA:-/tmp/wt5-C11/target/debug/rva}
[ -x "$RVA" ] || (cd /tmp/wt5-C11 && cargo build --workspace --offline >/dev/null 2>&1)
bad=0
count() { "$RVA" lint "$1" --compact --no-color | grep -c "Node in many functions"; }
at() { "$RVA" lint "$1" --compact --no-color | grep -c "Node in many functions in .* at $2 "; }

echo "--- control.s: unreachable arithmetic between 'j mid' and 'mid:' -> one warning, at g:"
"$RVA" lint control.s --compact --no-color | grep "Node in many functions"
c=$(count control.s)

echo "--- dead_ecall.s: the unreachable code in front of 'mid:' ends in an ecall"
"$RVA" lint dead_ecall.s --compact --no-color | grep "Node in many functions"
n=$(count dead_ecall.s); m=$(at dead_ecall.s 13)
if [ "$c" = 1 ] && [ "$n" = 2 ] && [ "$m" = 1 ]; then
    echo "VIOLATION: 'mid:' (line 13) is reported as a place where f and g meet; its only live predecessor is the shared 'j mid'"
    bad=1
fi

echo "--- dead_backward_chain.s: unreachable 'dead: j back' feeds 'back: addi / j mid' that stands earlier in the file"
"$RVA" lint dead_backward_chain.s --compact --no-color | grep "Node in many functions"
n=$(count dead_backward_chain.s); m=$(at dead_backward_chain.s 13)
u=$("$RVA" lint dead_backward_chain.s --compact --no-color | grep -c "Unreachable line of code in .* at 8 ")
echo "('j mid' in line 8 reported unreachable: $u time(s) - it still has its edges)"
if [ "$n" = 2 ] && [ "$m" = 1 ]; then
    echo "VIOLATION: 'mid:' (line 13) is reported as a place where f and g meet; the predecessor that 'does not share' is unreachable code"
    bad=1
fi
exit $bad
