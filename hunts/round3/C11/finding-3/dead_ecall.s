main:
    jal f
    jal g
    li a7, 10
    ecall
f:
    addi a0, a0, 1
g:
    addi a0, a0, 2
    j mid
    li a7, 10
    ecall
mid:
    addi a0, a0, 3
    ret
