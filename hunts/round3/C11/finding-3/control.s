main:
    jal f
    jal g
    li a7, 10
    ecall
f:
    addi a0, a0, 1
g:
    addi a0, a0, 2
    j mid
    li a0, 10
    addi a0, a0, 4
mid:
    addi a0, a0, 3
    ret
