main:
    jal f
    jal g
    li a7, 10
    ecall
back:
    addi t0, t0, 4
    j mid
f:
    addi a0, a0, 1
g:
    addi a0, a0, 2
mid:
    addi a0, a0, 3
    ret
dead:
    j back
