main:
    la t0, handler
    j install
    li t0, 0
install:
    csrrw zero, 5, t0
    li a7, 10
    ecall
handler:
    addi t1, t1, 1
    uret
