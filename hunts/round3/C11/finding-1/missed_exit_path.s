main:
    la t0, handler
    beqz a0, install
    li t0, 0
    li a7, 10
    ecall
install:
    csrrw zero, 5, t0
    li a7, 10
    ecall
handler:
    addi t1, t1, 1
    uret
