main:
    la t0, h1
    csrrw zero, 5, t0
    la t0, h2
    li a7, 10
    ecall
h1:
    csrrw zero, 5, t0
    uret
h2:
    addi t1, t1, 1
    uret
