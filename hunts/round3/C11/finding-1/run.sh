#!/bin/sh
# Finding 1: interrupt handlers are looked for on a graph in which dead code
# and the edges behind exit ecalls have not been cut yet.
# Exits non-zero when the violation is present.
cd "$(dirname "$0")" || exit 2
RVA=${RVA:-/tmp/wt5-C11/target/debug/rva}
[ -x "$RVA" ] || (cd /tmp/wt5-C11 && cargo build --workspace --offline >/dev/null 2>&1)
bad=0

# what the final analysis knows about the register written into utvec,
# and whether the handler's first instruction belongs to a function
probe() {
    file=$1; label_line=$2
    val=$("$RVA" lint "$file" --debug --no-color | awk '/^csrrw/ {f=1} f && /VALO/ {print; f=0}' | head -1)
    unreachable=$("$RVA" lint "$file" --compact --no-color | grep -c "Unreachable line of code in .* at $label_line ")
    echo "$file: value map behind the first csrrw utvec: $val"
    echo "$file: 'unreachable code' reported for the handler (line $label_line): $unreachable"
}

echo "--- control (la ... csrrw without a second way into the csrrw): handler must be a function"
probe control.s 11
if [ "$unreachable" != 0 ]; then echo "control failed?!"; fi

for f in missed_exit_path.s:12 missed_dead_code.s:10; do
    file=${f%%:*}; line=${f##*:}
    echo "--- $file"
    probe "$file" "$line"
    case "$val" in *"t0: handler"*) known=1 ;; *) known=0 ;; esac
    if [ "$known" = 1 ] && [ "$unreachable" != 0 ]; then
        echo "VIOLATION: the analysis itself knows that utvec := handler, yet 'handler' is not a function (its code is reported unreachable)"
        bad=1
    fi
done

echo "--- extra_handler.s (other direction)"
# h2 is never written into utvec in the final analysis (the only csrrw that could
# do it sits in handler h1, where t0 is 'whatever it was at entry'), yet it is a handler
dump=$("$RVA" lint extra_handler.s --yaml --no-color)
nfunc=$(echo "$dump" | grep -c "is_interrupt_handler: true")
echo "extra_handler.s: function entries marked as interrupt handler: $nfunc (expected 1: only h1 is installed)"
"$RVA" lint extra_handler.s --debug --no-color | awk '/^csrrw/ {c++} c==2 && /VALO/ {print "value map behind the csrrw inside h1: " $0; exit}' | cut -c1-160
if [ "$nfunc" = 2 ]; then
    echo "VIOLATION (weaker witness): h2 is treated as a handler function although no installation names it on the final graph"
    bad=1
fi
exit $bad
