#!/bin/sh
# Finding 2: 'Node in many functions' is reported a second time at the common
# exit, because the lint takes the synthetic edge "redirected return -> exit"
# for a way into the shared code. Exits non-zero when the violation is present.
cd "$(dirname "$0")" || exit 2
RVA=${RVA:-/tmp/wt5-C11/target/debug/rva}
[ -x "$RVA" ] || (cd /tmp/wt5-C11 && cargo build --workspace --offline >/dev/null 2>&1)
echo "--- control.s (f falls into g, no return of its own): sharing starts at g:, one warning"
"$RVA" lint control.s --compact --no-color | grep "Node in many functions"
c=$("$RVA" lint control.s --compact --no-color | grep -c "Node in many functions")
echo "--- shared_exit.s (f has a return of its own in front of g:): the shared code is still lines 10-12, entered at g: only"
"$RVA" lint shared_exit.s --compact --no-color | grep "Node in many functions"
n=$("$RVA" lint shared_exit.s --compact --no-color | grep -c "Node in many functions")
at_ret=$("$RVA" lint shared_exit.s --compact --no-color | grep -c "Node in many functions in .* at 12 ")
echo "control: $c warning(s); shared_exit: $n warning(s), $at_ret of them at the 'ret' in line 12"
if [ "$c" = 1 ] && [ "$n" = 2 ] && [ "$at_ret" = 1 ]; then
    echo "VIOLATION: a place where no sharing starts (the ret of g, whose only predecessor in the program is the shared addi) is reported as a place where functions meet"
    exit 1
fi
exit 0
