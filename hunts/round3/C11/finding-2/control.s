main:
    jal f
    jal g
    li a7, 10
    ecall
f:
    beqz a0, g
    li a0, 7
g:
    addi a0, a0, 1
    ret
