#!/bin/sh
# Exits non-zero when the defect is present.
# The two inputs are the same program; only the order of two unreachable blocks differs.
# In both, the only live path into the final `ecall` sets a7 = 10 (exit).
cd "$(dirname "$0")" || exit 2
RVA=/tmp/wt5-C12/target/debug/rva
[ -x "$RVA" ] || { echo "rva binary not found at $RVA (cargo build --workspace --offline)"; exit 2; }
A=$("$RVA" lint dead_after_target.s --compact --no-color 2>&1)
B=$("$RVA" lint dead_before_target.s --compact --no-color 2>&1)
echo "--- dead_after_target.s (unreachable 'j T' written behind T)"
echo "$A"
echo "--- dead_before_target.s (unreachable 'j T' written in front of T)"
echo "$B"
if echo "$A" | grep -q "Unknown ecall" && ! echo "$B" | grep -q "Unknown ecall"; then
    echo
    echo "VIOLATION: the dead-code pass stopped after one sweep; block T (reachable only from"
    echo "unreachable code) stayed connected to the live 'fin: ecall', whose a7 = 10 is lost."
    exit 1
fi
echo "not reproduced"
exit 0
