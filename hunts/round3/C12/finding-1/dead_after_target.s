main:
    li a7, 10
    j fin
T:
    li a7, 1
    j fin
dead:
    j T
fin:
    ecall
