main:
    li a7, 10
    j fin
dead:
    j T
T:
    li a7, 1
    j fin
fin:
    ecall
