main:
    li a0, 'a
    li a7, 10
    ecall
