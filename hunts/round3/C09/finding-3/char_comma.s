main:
    .byte 'a, 5
    li a7, 10
    ecall
