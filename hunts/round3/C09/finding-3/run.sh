#!/bin/sh
# Finding 3: the range of an unclosed character literal runs one character past the literal:
# onto the CR of a CR LF line ending, a blank in front of a comment, or a separating comma.
cd "$(dirname "$0")" || exit 2
. ./common.sh
for f in char_lf char_crlf char_comment char_comma; do
  "$RVA" lint $f.s --json > $f.json || true
  printf '%s: ' $f; "$RVA" lint $f.s --compact --no-color | grep 'Invalid string'
done
python3 - <<'PY'
import json, sys
bad = 0
cols = {}
for f in ('char_lf', 'char_crlf', 'char_comment', 'char_comma'):
    text = open(f + '.s', newline='').read()
    for x in json.load(open(f + '.json'))['diagnostics']:
        if x['title'] != 'Invalid string':
            continue
        s, e = x['range']['start'], x['range']['end']
        covered = text[s['raw']:e['raw'] + 1]
        cols[f] = (s['column'], e['column'])
        print("%s.s: 'Invalid string' line %d cols %d..%d covers %r" % (f, s['line'] + 1, s['column'], e['column'], covered))
        if covered != "'a":
            print("  VIOLATION: the broken literal is %r, the range covers %r" % ("'a", covered))
            bad = 1
if cols.get('char_lf') != cols.get('char_crlf'):
    print("VIOLATION: LF and CR LF layouts of the same line give different columns:", cols.get('char_lf'), cols.get('char_crlf'))
    bad = 1
sys.exit(bad)
PY
