main:
    li a0, 'a # comment
    li a7, 10
    ecall
