#!/bin/sh
# Finding 1: an unclosed .macro is reported with a range that starts on the
# .macro line and ends on the last line of the file.
cd "$(dirname "$0")" || exit 2
. ./common.sh
"$RVA" lint unclosed_macro.s --json > out.json || true
echo "--- compact output:"
"$RVA" lint unclosed_macro.s --compact --no-color
python3 - <<'PY'
import json, sys
d = json.load(open('out.json'))['diagnostics']
text = open('unclosed_macro.s').read()
bad = 0
for x in d:
    s, e = x['range']['start'], x['range']['end']
    print("diagnostic %r: start line %d col %d raw %d, end line %d col %d raw %d" % (
        x['title'], s['line'], s['column'], s['raw'], e['line'], e['column'], e['raw']))
    if s['line'] != e['line']:
        print("VIOLATION: range spans lines %d..%d; covered text: %r" % (s['line'] + 1, e['line'] + 1, text[s['raw']:e['raw'] + 1]))
        bad = 1
sys.exit(bad)
PY
