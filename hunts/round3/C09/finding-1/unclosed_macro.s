main:
    li a7, 10
    ecall
.macro foo
    add a0, a0, a0
    li a1, 4
