#!/bin/sh
# Finding 2: "Overwrite callee-saved register" about the ra that `jal label` / `call label`
# writes implicitly is located on the mnemonic only (neither a register nor the instruction).
cd "$(dirname "$0")" || exit 2
. ./common.sh
for f in nonleaf_jal nonleaf_call nonleaf_jal_ra; do
  "$RVA" lint $f.s --json > $f.json || true
  echo "--- $f.s:"; "$RVA" lint $f.s --no-color
done
python3 - <<'PY'
import json, sys
bad = 0
for f, whole in (('nonleaf_jal', 'jal   g'), ('nonleaf_call', 'call  g'), ('nonleaf_jal_ra', None)):
    text = open(f + '.s').read()
    for x in json.load(open(f + '.json'))['diagnostics']:
        if x['title'] != 'Overwrite callee-saved register':
            continue
        s, e = x['range']['start'], x['range']['end']
        covered = text[s['raw']:e['raw'] + 1]
        print("%s.s: %r at line %d cols %d..%d covers %r" % (f, x['title'], s['line'] + 1, s['column'] + 1, e['column'] + 1, covered))
        if whole is None:
            if covered != 'ra':
                print("  unexpected for the explicit form"); bad = 1
        elif covered != whole:
            print("  VIOLATION: the text is neither a register nor the instruction %r" % whole)
            bad = 1
sys.exit(bad)
PY
