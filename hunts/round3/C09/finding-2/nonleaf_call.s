main:
    jal   f
    li    a7, 10
    ecall
f:
    call  g
    ret
g:
    ret
