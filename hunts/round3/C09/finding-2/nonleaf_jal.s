main:
    jal   f
    li    a7, 10
    ecall
f:
    jal   g
    ret
g:
    ret
