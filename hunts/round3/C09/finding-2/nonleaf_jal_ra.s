main:
    jal   f
    li    a7, 10
    ecall
f:
    jal   ra, g
    ret
g:
    ret
