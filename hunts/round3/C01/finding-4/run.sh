#!/bin/sh
# Finding 4 (low confidence, depends on the assembler's line rules): a lone CR does not end a comment
cd "$(dirname "$0")" || exit 2
RVA=/tmp/wt5-C01/target/debug/rva
# the file is generated here so that the CR survives editors
printf 'main:\n    li   a7, 5        # read an integer ...\r    li   a7, 10       # ... no: exit\n    ecall\n    mv   t0, a0\n    li   a7, 10\n    ecall\n' > lone_cr.s
out=$($RVA lint lone_cr.s --debug --yaml --no-color 2>&1)
n=$(printf '%s\n' "$out" | grep -c '^- node: !IArith')
a7=$(printf '%s\n' "$out" | awk '/^- node: !Basic/{f=1} f&&/reg_values_in:/{g=1} f&&g&&/^ *17: /{print;exit}')
echo "li instructions seen by the analyzer: $n (the file has 3); claim for a7 at the first ecall:$a7"
case "$a7" in
  *"!c 5"*) echo "VIOLATION: a7 claimed 5 at the first ecall; an assembler that ends lines at CR (RARS) runs 'li a7, 10' first"; exit 1;;
esac
exit 0
