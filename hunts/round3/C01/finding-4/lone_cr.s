main:
    li   a7, 5        # read an integer ...    li   a7, 10       # ... no: exit
    ecall
    mv   t0, a0
    li   a7, 10
    ecall
