# Variant for machines that trap on misaligned accesses (RARS): every access is
# naturally aligned. RARS starts with sp = 0x7fffeffc.
main:
    addi sp, sp, -2         # sp = 2 (mod 4)
    jal  f
    addi sp, sp, 2
    li   a7, 10
    ecall
f:
    li   t0, 0x7FFFFFFE
    add  sp, sp, t0         # entry sp + 0x7FFFFFFE = 0 (mod 4)
    li   a0, 10
    sw   a0, 0(sp)          # word aligned
    addi sp, sp, 2
    li   a1, 0x1111
    sh   a1, 0(sp)          # half aligned: the upper half of the word above
    addi sp, sp, -2
    lw   a0, 0(sp)          # machine: 0x1111000a
    li   t0, 0x7FFFFFFE
    sub  sp, sp, t0
    ret
