#!/bin/sh
# Finding 2: a stack word overwritten across the 2^31 boundary of the offset keeps its claim.
cd "$(dirname "$0")" || exit 2
RVA=/tmp/wt5-C01/target/debug/rva
bad=0
out=$($RVA lint wrap.s --debug --yaml --no-color 2>&1)
# claims behind 'lw a7, 0(sp)'
a7=$(printf '%s\n' "$out" | awk '/^- node: !Load/{f=1} f&&/reg_values_out:/{g=1} f&&g&&/^ *17: /{print;exit}')
echo "wrap.s: claim for a7 behind 'lw a7, 0(sp)':$a7   (machine: 0x1111000a)"
printf '%s\n' "$out" | grep -A5 'Unreachable' | sed 's/^/    /'
case "$a7" in
  *"!c 10"*) echo "VIOLATION: a7 is claimed to be the constant 10; the word was half overwritten"; bad=1;;
esac
out=$($RVA lint wrap_aligned.s --debug --yaml --no-color 2>&1)
a0=$(printf '%s\n' "$out" | awk '/^- node: !Load/{f=1} f&&/reg_values_out:/{g=1} f&&g&&/^ *10: /{print;exit}')
echo "wrap_aligned.s: claim for a0 behind 'lw a0, 0(sp)':$a0   (machine: 0x1111000a)"
case "$a0" in
  *"!c 10"*) echo "VIOLATION: a0 is claimed to be the constant 10; the upper half was overwritten by sh"; bad=1;;
esac
exit $bad
