main:
    li   t0, 0x7FFFFFFE
    add  sp, sp, t0         # sp = sp0 + 0x7FFFFFFE
    li   a0, 10
    sw   a0, 0(sp)          # bytes sp0+0x7FFFFFFE .. sp0+0x80000001
    addi sp, sp, 2          # sp = sp0 + 0x80000000  (offset wraps to -2^31)
    li   a1, 0x11111111
    sw   a1, 0(sp)          # bytes sp0+0x80000000 .. sp0+0x80000003: the upper half of the first word
    addi sp, sp, -2
    lw   a7, 0(sp)          # the machine loads 0x1111000a
    ecall                   # ... the analyzer says a7 = 10 (exit)
    li   a0, 1
    li   a7, 1
    ecall
    li   a7, 10
    ecall
