main:
    csrrwi zero, ustatus, 10    # only the bits UIE (0) and UPIE (4) of ustatus exist: ustatus stays 0
    csrrs  a7, ustatus, zero    # machine (RARS): a7 = 0; analyzer: a7 = 10
    ecall                       # taken for 'exit'
    li   a0, 1
    li   a7, 1
    ecall
    li   a7, 10
    ecall
