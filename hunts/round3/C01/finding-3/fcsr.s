main:
    csrrwi zero, fcsr, 31       # fcsr = 0x1f (all five flags)
    csrrwi zero, fflags, 0      # fflags is the low five bits of fcsr: fcsr = 0
    csrrs  t0, fcsr, zero       # machine: t0 = 0; analyzer: t0 = 31
    addi a7, t0, -21            # analyzer: 10 (exit); machine: -21
    ecall
    li   a0, 1
    li   a7, 1
    ecall
    li   a7, 10
    ecall
