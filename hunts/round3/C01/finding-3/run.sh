#!/bin/sh
# Finding 3: what is written to a CSR is claimed to be read back unchanged
cd "$(dirname "$0")" || exit 2
RVA=/tmp/wt5-C01/target/debug/rva
bad=0
for f in ustatus.s fcsr.s; do
    out=$($RVA lint $f --no-color 2>&1)
    if printf '%s\n' "$out" | grep -q 'Unreachable'; then
        echo "VIOLATION in $f: the first ecall is taken for 'exit' (a7 claimed 10):"
        printf '%s\n' "$out" | grep -A5 'Unreachable' | sed 's/^/    /'
        bad=1
    fi
done
exit $bad
