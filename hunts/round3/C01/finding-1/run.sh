#!/bin/sh
# Finding 1: the temporary register of `s{b,h,w} rs, label, rt` / `s{b,h,w} rs, imm, rt`
# is claimed to hold the label's address / the immediate.
cd "$(dirname "$0")" || exit 2
RVA=/tmp/wt5-C01/target/debug/rva
bad=0

out=$($RVA lint store_label.s --debug --yaml --no-color 2>&1)
# claims in front of the final ecall (last node of the dump)
claims=$(printf '%s\n' "$out" | awk '/^- node: !Basic/{buf=""} {buf=buf"\n"$0} END{print buf}' \
         | awk '/reg_values_in:/{f=1;next} /reg_values_out:/{f=0} f')
echo "claims in front of the last ecall of store_label.s:"
echo "$claims" | sed 's/^/    /'
t2=$(echo "$claims" | grep -c '^ *7: !a dat')
t3=$(echo "$claims" | grep -c '^ *28: !a dat')
if [ "$t2" = 1 ] && [ "$t3" = 1 ]; then
    echo "VIOLATION: t2 and t3 are both claimed to hold the address of 'dat'."
    echo "  The two auipc instructions stand 8 bytes apart, so pc+hi20(dat-pc) cannot be"
    echo "  'dat' for both (RARS layout: t2 = 0x10010004, t3 = 0x1001000c, dat = 0x10010064)."
    bad=1
fi

out2=$($RVA lint store_imm.s --no-color 2>&1)
if printf '%s\n' "$out2" | grep -q 'Unreachable'; then
    echo "VIOLATION: store_imm.s: the ecall is taken for 'exit' because t5 is claimed to be 100"
    echo "  (RARS expands 'sw t1, 100, t5' to 'lui t5, 0 ; sw t1, 100(t5)': t5 = 0, a7 = -90):"
    printf '%s\n' "$out2" | grep -A5 'Unreachable' | sed 's/^/    /'
    bad=1
fi
exit $bad
