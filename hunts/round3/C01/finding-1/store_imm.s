main:
    li   t1, 7
    sw   t1, 100, t5        # RARS: lui t5, 0 ; sw t1, 100(t5)   -> t5 = 0
    addi a7, t5, -90        # analyzer: 100 - 90 = 10 (exit); machine: 0 - 90 = -90
    ecall
    li   a0, 1              # reported as unreachable
    li   a7, 1
    ecall
    li   a7, 10
    ecall
