.data
pad: .space 100
dat: .word 0
.text
main:
    li   t1, 7
    sw   t1, dat, t2        # auipc t2, %pcrel_hi(dat) ; sw t1, %pcrel_lo(..)(t2)
    sw   t1, dat, t3        # the same, 8 bytes further on
    li   a7, 10
    ecall
