# Two overlapping functions (the layout of the tool's own unit test
# `overlapping_functions` in lints/control_flow.rs): fn_a runs into fn_b.
main:
    li     a0, 0
    jal    fn_a            # executes line 12, then falls through to line 14
    jal    fn_b
    mv     a1, a0
    li     a0, 0
    addi   a7, zero, 93
    ecall
fn_a:
    addi   a0, a0, 1       # line 12: this value IS read by line 14
fn_b:
    addi   a0, a0, 2       # line 14
    ret
