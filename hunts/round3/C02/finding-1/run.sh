#!/bin/sh
# Exits 1 when the violation is present.
RVA=${RVA:-/tmp/wt5-C02/target/debug/rva}
cd "$(dirname "$0")"
out=$($RVA lint fallthrough.s --compact --no-color 2>&1)
dbg=$($RVA lint fallthrough.s --debug --no-color --no-output 2>&1)
echo "$out"
# live-out of `addi a0 <- a0, 1` (the instruction in front of the label fn_b)
livo=$(echo "$dbg" | awk '/^addi a0 <- a0, 1/{f=1} f&&/LIVO/{print; exit}')
echo "live-out of 'addi a0, a0, 1' (line 12): $livo"
bad=0
if echo "$out" | grep -q "Unused value in .*fallthrough.s at 12 "; then
  echo "VIOLATION: 'Unused value' for line 12, although line 14 reads that a0 on the only path"
  bad=1
fi
case "$livo" in
  *a0*) ;;
  *) echo "VIOLATION: a0 is not live after line 12 although the next executed instruction reads it"; bad=1;;
esac
exit $bad
