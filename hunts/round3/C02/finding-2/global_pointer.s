# gp / tp are set up once by the main program and used by a function.
# The RISC-V calling convention says calls neither read-as-argument nor clobber gp/tp:
# they simply keep their value, so the callee sees what main wrote.
.data
table:  .word 10, 20, 30, 40
.text
main:
    la   gp, table          # line 8
    li   tp, 8              # line 9
    jal  lookup             # line 10
    li   a7, 1
    ecall                   # print a0
    li   a7, 10
    ecall
lookup:
    add  t0, gp, tp         # line 16: reads the gp and tp written in lines 8 and 9
    lw   a0, 0(t0)
    ret
