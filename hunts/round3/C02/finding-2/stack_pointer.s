# main allocates a frame; the (entirely conventional) callee pushes its own frame below it.
main:
    addi sp, sp, -16        # line 3: new value of sp
    sw   zero, 0(sp)
    li   a0, 5
    jal  twice              # line 6
    li   a7, 1
    ecall
    li   a7, 10
    ecall
twice:
    addi sp, sp, -16        # line 12: reads the sp computed in line 3
    sw   ra, 12(sp)
    add  a0, a0, a0
    lw   ra, 12(sp)
    addi sp, sp, 16
    ret
