#!/bin/sh
# Exits 1 when the violation is present.
RVA=${RVA:-/tmp/wt5-C02/target/debug/rva}
cd "$(dirname "$0")"
bad=0
out=$($RVA lint global_pointer.s --compact --no-color 2>&1)
echo "$out"
for line in 8 9; do
  if echo "$out" | grep -q "Unused value in .*global_pointer.s at $line "; then
    echo "VIOLATION: 'Unused value' at line $line, but line 16 (in the callee) reads that register"
    bad=1
  fi
done
dbg=$($RVA lint global_pointer.s --debug --no-color --no-output 2>&1)
livi=$(echo "$dbg" | awk '/^jal \[lookup\]/{f=1} f&&/LIVI/{print; exit}')
echo "global_pointer.s: live-in of 'jal lookup': $livi"
case "$livi" in *gp*tp*) ;; *) echo "VIOLATION: gp/tp not live before the call whose callee reads them"; bad=1;; esac
dbg=$($RVA lint stack_pointer.s --debug --no-color --no-output 2>&1)
livi=$(echo "$dbg" | awk '/^jal \[twice\]/{f=1} f&&/LIVI/{print; exit}')
echo "stack_pointer.s: live-in of 'jal twice': $livi"
case "$livi" in *sp*) ;; *) echo "VIOLATION: sp not live before the call although the callee reads it (addi sp, sp, -16)"; bad=1;; esac
exit $bad
