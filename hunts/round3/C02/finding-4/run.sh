#!/bin/sh
# Exits 1 when the violation is present.
RVA=${RVA:-/tmp/wt5-C02/target/debug/rva}
cd "$(dirname "$0")"
out=$($RVA lint computed_jump.s --compact --no-color 2>&1)
echo "$out"
dbg=$($RVA lint computed_jump.s --debug --no-color --no-output 2>&1)
livo=$(echo "$dbg" | awk '/^la t0 <- \[finish\]/{f=1} f&&/LIVO/{print; exit}')
livi=$(echo "$dbg" | awk '/^jalr \[t0\]/{f=1} f&&/LIVI/{print; exit}')
echo "live-out of 'la t0, finish': $livo"
echo "live-in  of 'jr t0'         : $livi"
bad=0
if echo "$out" | grep -q "Unused value in .*computed_jump.s at 4 "; then
  echo "VIOLATION: 'Unused value' for line 4 although line 5 (jr t0) reads t0"; bad=1; fi
case "$livo" in *t0*) ;; *) echo "VIOLATION: t0 not live after line 4 although it is live into line 5"; bad=1;; esac
exit $bad
