# A computed jump: the address is built in t0 and `jr t0` reads it.
main:
    beqz a0, skip
    la   t0, finish        # line 4: the value of t0 ...
    jr   t0                # line 5: ... is read here, by the very next instruction
skip:
    li   a1, 1
    sw   a1, 0(sp)
finish:
    li   a7, 10
    ecall
