# RARS service 44 (RandDouble): a0 = index of the pseudorandom number generator; result in fa0.
main:
    li   a0, 3             # line 3: generator number
    li   a7, 44
    ecall
    li   a7, 10
    ecall
