# RARS service 51 (InputDialogInt): a0 = address of the message string;
# returns a0 = the integer read, a1 = status.
.data
prompt: .string "How many? "
.text
main:
    la   a0, prompt        # line 7: the argument of service 51
    li   a7, 51
    ecall
    bnez a1, main          # status != 0: ask again
    li   a7, 1             # PrintInt(a0)
    ecall
    li   a7, 10
    ecall
