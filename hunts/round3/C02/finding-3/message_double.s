# RARS service 58 (MessageDialogDouble): a0 = address of the message, fa0 = the number.
.data
msg: .string "value: "
.text
main:
    la   a0, msg           # line 6
    li   a7, 58
    ecall
    li   a7, 10
    ecall
