#!/bin/sh
# Exits 1 when the violation is present.
RVA=${RVA:-/tmp/wt5-C02/target/debug/rva}
cd "$(dirname "$0")"
bad=0
check() { # file line service
  out=$($RVA lint "$1" --compact --no-color 2>&1)
  echo "$out"
  if echo "$out" | grep -q "Unused value in .*$1 at $2 "; then
    echo "VIOLATION: $1: the a0 set in line $2 is reported unused although ecall $3 reads it"
    bad=1
  fi
  livi=$($RVA lint "$1" --debug --no-color --no-output 2>&1 | awk '/^ecall/{f=1} f&&/LIVI/{print; exit}')
  echo "$1: live-in of the first ecall (service $3): $livi"
  case "$livi" in *a0*) ;; *) echo "VIOLATION: a0 not live into ecall $3"; bad=1;; esac
}
check input_dialog.s 7 51
check rand_double.s 3 44
check message_double.s 6 58
# control: the neighbouring service 50 (ConfirmDialog) is known and behaves
sed 's/li   a7, 51/li   a7, 50/' input_dialog.s > control_50.s
if $RVA lint control_50.s --compact --no-color 2>&1 | grep -q "Unused value in .* at 7 "; then
  echo "(control) service 50 also affected?"; fi
rm -f control_50.s
exit $bad
