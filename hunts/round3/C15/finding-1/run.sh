#!/bin/sh
# Exits non-zero when the violation of C15 is present.
# A data list (resp. a .macro body) that continues over an include boundary is
# not analysed like the single pasted file.
RVA=${RVA:-/tmp/wt5-C15/target/debug/rva}
cd "$(dirname "$0")" || exit 2
lint() { (cd "$1" && timeout 60 "$RVA" lint main.s --compact --no-color --all-files | sed "s#$(pwd -P)/##"); }
bad=0

a_flat=$(lint a_flat)
a_split=$(lint a_split)
a2_split=$(lint a2_split)
echo "A  flat (table rows in one file)       : [$a_flat]"
echo "A  split (.include \"rows.s\" in the list): [$a_split]"
echo "A2 split (list starts in head.s)        : [$a2_split]"
# the flat program is clean, so every way of cutting it must be clean too
if [ -z "$a_flat" ] && [ -n "$a_split" ]; then echo "VIOLATION A: diagnostics only in the split program"; bad=1; fi
if [ -z "$a_flat" ] && [ -n "$a2_split" ]; then echo "VIOLATION A2: diagnostics only in the split program"; bad=1; fi

b_flat=$(lint b_flat)
b_split=$(lint b_split)
echo "B  flat : [$b_flat]"
echo "B  split: [$b_split]"
# flat: exactly one diagnostic, on `.macro` (line 4 of the flat file = line 1 of defs.s)
expected="Error: Unsupported operation in defs.s at 1 1:6"
if [ "$b_flat" = "Error: Unsupported operation in main.s at 4 1:6" ] && [ "$b_split" != "$expected" ]; then
  echo "VIOLATION B: expected only [$expected] for the split program"; bad=1
fi
exit $bad
