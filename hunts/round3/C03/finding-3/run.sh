#!/bin/bash
# Finding 3: after FunctionMarkupPass has turned a second return into a jump to the
# exit, the successor / predecessor sets answer membership questions inconsistently:
# `exit.prevs()` lists the redirected return but `exit.prevs().contains(&ret)` is false,
# `pred.nexts()` lists it but `pred.nexts().contains(&ret)` is false (the key of a node
# that sits in hash sets was replaced). Test program against the library API.
cd "$(dirname "$0")"
T=$(mktemp -d /tmp/hunt3-C03-f3-target.XXXXXX)
( cd harness && CARGO_TARGET_DIR="$T" cargo build --offline 2>&1 | tail -2 )
"$T/debug/c03_harness" two_rets.s
rc=$?
rm -rf "$T"
if [ $rc -ne 0 ]; then echo "VIOLATION: successor/predecessor membership is not an exact inverse"; else echo "no violation observed"; fi
exit $rc
