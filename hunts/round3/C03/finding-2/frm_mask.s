# frm (CSR 2) is a three-bit field: writing 10 stores 10 & 7 = 2.
main:
    li t0, 10
    csrw t0, frm         # frm = 2
    csrr a7, frm         # a7 = 2 (PrintFloat), not 10
    ecall                # prints fa0 and returns
    li a0, 1             # reached by every execution
    li a7, 10
    ecall
