# fflags (CSR 1) is bits 4:0 of fcsr (CSR 3), frm (CSR 2) is bits 7:5 of fcsr.
main:
    li t0, 10
    csrw t0, fcsr        # fcsr = 10  (fflags = 0b01010, frm = 0)
    csrwi fflags, 1      # fflags = 1 -> fcsr = 1
    csrr a7, fcsr        # a7 = 1 (PrintInt), not 10
    ecall                # prints a0 and returns
    li a0, 1             # reached by every execution
    li a7, 10
    ecall
