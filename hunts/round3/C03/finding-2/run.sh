#!/bin/bash
# Finding 2: CSRs are modelled as independent, fully writable 32-bit cells. A value
# read back from fcsr/fflags/frm (aliases of each other, narrow fields) is taken to be the
# value written, an ecall is declared an exit ecall (a7 "= 10") although a7 holds another
# service number, its outgoing edge is cut and the code behind it is reported unreachable.
cd "$(dirname "$0")"
RVA=${RVA:-/tmp/wt5-C03/target/debug/rva}
if [ ! -x "$RVA" ]; then (cd /tmp/wt5-C03 && cargo build --workspace --offline >/dev/null 2>&1); fi
fail=0
check() { # file, index of the first ecall node, line of the instruction behind it
  f=$1; node=$2; line=$3
  echo "=== $f"
  "$RVA" lint --yaml --no-output "$f" | python3 graph.py > graph.out
  "$RVA" lint --compact --no-color "$f" > diag.out
  cat graph.out; cat diag.out
  if awk -F'\t' -v n="$node" '$1==n' graph.out | grep -q 'nexts=\[\]'; then
    echo "VIOLATION: ecall node $node (a7 is not 10/93 when it executes) has no successor: the executed fall-through behind it is no edge"
    fail=1
  fi
  if grep -q "Unreachable line of code .* at $line " diag.out; then
    echo "VIOLATION: line $line, reached by every execution, is reported as unreachable code"
    fail=1
  fi
}
check fcsr_alias.s 5 8
check frm_mask.s 4 7
rm -f graph.out diag.out
[ $fail -eq 0 ] && echo "no violation observed"
exit $fail
