main:
    li s1, 10
    li a0, 5
    jal f            # f leaves s1 = 1
    mv a7, s1        # a7 = 1 (PrintInt)
    ecall            # prints 5 and returns
    li a0, 1         # reached by every execution
    li a7, 10
    ecall
f:
    li s1, 1
    ret
