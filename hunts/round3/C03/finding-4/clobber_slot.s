main:
    addi sp, sp, -16
    li t0, 10
    sw t0, 0(sp)
    li a0, 5
    jal f            # f stores 1 to 0(sp) of its caller (it has no frame of its own)
    lw a7, 0(sp)     # a7 = 1 (PrintInt)
    ecall            # prints 5 and returns
    li a0, 1         # reached by every execution
    li a7, 10
    ecall
f:
    li t1, 1
    sw t1, 0(sp)
    ret
