#!/bin/bash
# Finding 4 (borderline, depends on how far the calling convention may be trusted):
# behind a call, s-registers and the stack slots at/above sp are assumed unchanged even
# when the callee visibly writes them; a7 is then "known" to be 10, the ecall is made an
# exit, its edge is cut and executed code is reported unreachable.
cd "$(dirname "$0")"
RVA=${RVA:-/tmp/wt5-C03/target/debug/rva}
if [ ! -x "$RVA" ]; then (cd /tmp/wt5-C03 && cargo build --workspace --offline >/dev/null 2>&1); fi
fail=0
check() { f=$1; node=$2; line=$3
  echo "=== $f"
  "$RVA" lint --yaml --no-output "$f" | python3 graph.py > graph.out
  "$RVA" lint --compact --no-color "$f" > diag.out
  cat graph.out; cat diag.out
  if awk -F'\t' -v n="$node" '$1==n' graph.out | grep -q 'Ecall.*nexts=\[\]'; then
    echo "VIOLATION: ecall node $node executes with a7 = 1 and returns, but has no successor edge"; fail=1
  fi
  if grep -q "Unreachable line of code .* at $line " diag.out; then
    echo "VIOLATION: line $line, reached by every execution, is reported as unreachable code"; fail=1
  fi
}
check clobber_s1.s 5 7
keep=$fail
check clobber_slot.s 7 9   # informational only: probably covered by the accepted "stack-passed arguments" decision
fail=$keep
rm -f graph.out diag.out
[ $fail -eq 0 ] && echo "no violation observed"
exit $fail
