#!/bin/bash
# Finding 1: a call that is the last instruction of the program loses its
# incoming edge and is reported as unreachable although it is executed.
cd "$(dirname "$0")"
RVA=${RVA:-/tmp/wt5-C03/target/debug/rva}
if [ ! -x "$RVA" ]; then (cd /tmp/wt5-C03 && cargo build --workspace --offline >/dev/null 2>&1); fi
fail=0
echo "--- graph (index kind operands nexts prevs)"
"$RVA" lint --yaml --no-output last_call.s | python3 graph.py | tee graph.out
echo "--- diagnostics"
"$RVA" lint --compact --no-color last_call.s | tee diag.out
# node 9 = `li a0, 0` (line 14), node 10 = `jal exit_if_zero` (line 15, last instruction)
li=$(awk -F'\t' '$1==9' graph.out)
call=$(awk -F'\t' '$1==10' graph.out)
if ! echo "$li" | grep -q 'nexts=\[10\]'; then
  echo "VIOLATION: the fall-through 'li a0, 0' -> 'jal exit_if_zero' (executed in every run) is not an edge: $li"
  fail=1
fi
if ! echo "$call" | grep -q 'prevs=\[9\]'; then
  echo "VIOLATION: the final call has no predecessor: $call"
  fail=1
fi
if grep -q 'Unreachable line of code .* at 15 ' diag.out; then
  echo "VIOLATION: line 15 (jal exit_if_zero), which every execution reaches, is reported as unreachable code"
  fail=1
fi
rm -f graph.out diag.out
[ $fail -eq 0 ] && echo "no violation observed"
exit $fail
