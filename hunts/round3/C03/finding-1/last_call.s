# Every execution ends in the exit ecall inside exit_if_zero:
#   j main -> li a0,1 -> jal (returns: a0 != 0) -> li a0,0 -> jal (never returns: exits)
# Nothing falls off the end of the text, no indirect jump except ret.
    j main
exit_if_zero:
    bnez a0, back
    li a7, 10
    ecall
back:
    ret
main:
    li a0, 1
    jal exit_if_zero
    li a0, 0
    jal exit_if_zero
