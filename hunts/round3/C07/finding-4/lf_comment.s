main:
    li   a0, 1   # set up
    frob a1
    li   a7, 10
    ecall
