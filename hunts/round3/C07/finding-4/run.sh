#!/bin/sh
# C07 finding 4: with CR-only line endings (classic Mac; RARS/Java readLine
# accepts them) (a) a comment swallows all following lines without any
# diagnostic and (b) the recovery after a bad line skips all following lines.
cd "$(dirname "$0")" || exit 2
RVA=/tmp/wt5-C07/target/debug/rva
[ -x "$RVA" ] || (cd /tmp/wt5-C07 && cargo build --workspace --offline >/dev/null 2>&1)
nodes() { "$RVA" lint "$1" --debug --compact --no-color | grep -v '^  |' | grep -v '^$' | grep -v -E '^(Error|Warning|Info|Hint): '; }
perr()  { "$RVA" lint "$1" --compact --no-color | grep -E 'Expected|Unexpected|Unsupported|Unknown directive|Invalid string' | sed -E 's#in /.*/[a-z_]+\.s at.*##'; }
rc=0
for k in comment badline; do
  echo "== cr_$k.s : nodes";  nodes cr_$k.s;  echo "== cr_$k.s : parse errors"; perr cr_$k.s
  echo "== lf_$k.s (same text, LF endings) : nodes"; nodes lf_$k.s; echo "== lf_$k.s : parse errors"; perr lf_$k.s
  if [ "$(nodes cr_$k.s)" != "$(nodes lf_$k.s)" ]; then
    echo "VIOLATION ($k): statements behind a carriage return did not become nodes (silently dropped)"; rc=1
  fi
  if [ "$(perr cr_$k.s)" != "$(perr lf_$k.s)" ]; then
    echo "VIOLATION ($k): the malformed line 'frob a1' is reported with LF endings but not with CR endings"; rc=1
  fi
done
exit $rc
