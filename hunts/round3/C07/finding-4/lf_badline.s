main:
    li   a0, 1
    frob a1
    li   a7, 10
    ecall
