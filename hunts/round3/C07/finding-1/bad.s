.macro helper
    addi t0, t0, 1
    addi t1, t1, 1 @
    addi s0, s0, 1
    sw   s1, 0(sp)
.end_macro
main:
    li   a0, 1
    li   a7, 10
    ecall
