#!/bin/sh
# C07 finding 1: a lexically bad line inside a .macro body ends the skipping of
# the macro: the .macro error is lost, the lines before the bad line vanish
# without any diagnostic and the lines behind it are analysed as program code.
cd "$(dirname "$0")" || exit 2
RVA=/tmp/wt5-C07/target/debug/rva
[ -x "$RVA" ] || (cd /tmp/wt5-C07 && cargo build --workspace --offline >/dev/null 2>&1)
nodes() { "$RVA" lint "$1" --debug --compact --no-color | grep -v '^  |' | grep -v '^$' | grep -v -E '^(Error|Warning|Info|Hint): '; }
diags() { "$RVA" lint "$1" --compact --no-color | sed -E 's#in /.*/[a-z]+\.s at#at#' ; }
echo "== bad.s (line 3 contains a stray '@') : nodes"; nodes bad.s
echo "== bad.s : diagnostics";  diags bad.s
echo "== deleted.s (line 3 emptied) : nodes"; nodes deleted.s
echo "== deleted.s : diagnostics"; diags deleted.s
rc=0
# (a) containment: nodes of the other lines must not depend on line 3
if [ "$(nodes bad.s)" != "$(nodes deleted.s)" ]; then
  echo "VIOLATION: the other lines are parsed differently when line 3 is present (macro body lines became instructions)"; rc=1
fi
# (b) diagnostics on other lines than 3 must be the same
if [ "$(diags bad.s | grep -v ' at 3 ')" != "$(diags deleted.s)" ]; then
  echo "VIOLATION: diagnostics on lines other than 3 differ"; rc=1
fi
# (c) lines 1-2 ('.macro helper', 'addi t0, t0, 1') are neither nodes nor named by an error
if ! diags bad.s | grep -q -E ' at [12] '; then
  if ! nodes bad.s | grep -q 'addi t0 <- t0'; then
    echo "VIOLATION: lines 1-2 of bad.s produce neither a node nor a diagnostic"; rc=1
  fi
fi
exit $rc
