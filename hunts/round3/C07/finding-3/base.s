main:
    li   a0, 1
    li   a7, 10
    ecall
.include "latin1_inc.s"
