#!/bin/sh
# C07 finding 3: one byte that is not valid UTF-8 (e.g. a Latin-1 letter in a
# comment) makes the whole file unreadable: no line of it becomes a node and
# the malformed line 3 is not named by any error located on it.
cd "$(dirname "$0")" || exit 2
RVA=/tmp/wt5-C07/target/debug/rva
[ -x "$RVA" ] || (cd /tmp/wt5-C07 && cargo build --workspace --offline >/dev/null 2>&1)
diags() { "$RVA" lint "$1" --compact --no-color --all-files | sed -E 's#in /.*/([a-z0-9_]+\.s) at#in \1 at#' ; }
echo "== latin1.s : diagnostics"; diags latin1.s
echo "== ascii.s (same file, the byte 0xE9 replaced by 'e') : diagnostics"; diags ascii.s
echo "== base.s including latin1_inc.s : diagnostics"; diags base.s
rc=0
if ! diags latin1.s | grep -q 'in latin1.s at 3 '; then
  echo "VIOLATION: line 3 of latin1.s ('frob a1') is not named by any error located on it; the only diagnostic is:"
  diags latin1.s
  rc=1
fi
if ! "$RVA" lint latin1.s --debug --no-color | grep -q 'addi a7 <- zero, 10'; then
  echo "VIOLATION: the well-formed lines of latin1.s (e.g. 'li a7, 10') did not become nodes"
  rc=1
fi
if ! diags base.s | grep -q 'in latin1_inc.s at 2 '; then
  echo "VIOLATION: line 2 of the included latin1_inc.s ('frob a1') is not named by an error located on it"
  rc=1
fi
exit $rc
