helper:
    frob a1       # café
    ret
