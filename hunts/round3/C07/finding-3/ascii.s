main:
    li   a0, 1          # cafe (Latin-1 e-acute in a comment)
    frob a1
    li   a7, 10
    ecall
