#!/bin/sh
# C07 finding 2: a malformed line inside a continued data list makes every
# following continuation line a parse error ("Expected INSTRUCTION").
cd "$(dirname "$0")" || exit 2
RVA=/tmp/wt5-C07/target/debug/rva
[ -x "$RVA" ] || (cd /tmp/wt5-C07 && cargo build --workspace --offline >/dev/null 2>&1)
diags() { "$RVA" lint "$1" --compact --no-color | sed -E 's#in /.*/[a-z]+\.s at#at#' ; }
echo "== bad.s (line 3 is '3, 4x') : diagnostics";  diags bad.s
echo "== deleted.s (line 3 emptied) : diagnostics"; diags deleted.s
rc=0
others_bad=$(diags bad.s | grep -v ' at 3 ')
others_del=$(diags deleted.s)
if [ "$others_bad" != "$others_del" ]; then
  echo "VIOLATION: lines 4 and 5 are continuation lines of the .word list when line 3 is deleted,"
  echo "           but are reported as parse errors when the malformed line 3 is present:"
  diags bad.s | grep -E ' at [45] '
  rc=1
fi
exit $rc
