.data
table: .word 1, 2
       3, 4x
       5, 6
       7, 8
.text
main:
    la   t0, table
    lw   a0, 0(t0)
    li   a7, 1
    ecall
    li   a7, 10
    ecall
