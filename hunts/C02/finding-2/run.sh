#!/bin/sh
RVA=${RVA:-/tmp/wt3-C02/target/debug/rva}
D=$(cd "$(dirname "$0")" && pwd)
bad=0
out=$("$RVA" lint "$D/indirect_call.s" --compact --no-color 2>&1)
echo "$out"
if echo "$out" | grep -q "Unused value in .* at 8 "; then
  echo "VIOLATION: 'li a1, 20' (line 8) reported unused, but addn, called through 'jalr ra, t0, 0', reads a1"; bad=1; fi
if echo "$out" | grep -q "Unused value in .* at 7 "; then
  echo "VIOLATION: 'li a0, 2' (line 7) reported unused, but addn reads a0"; bad=1; fi
exit $bad
