main:
    li   a0, 1
    li   a1, 10
    jal  addn             # direct call: addn is a recognised function
    li   a7, 1
    ecall
    li   a0, 2
    li   a1, 20           # line 8: argument of the indirect call below
    la   t0, addn
    jalr ra, t0, 0        # line 10: indirect call of addn
    li   a7, 1            # print a0 (the result)
    ecall
    li   a7, 10
    ecall
addn:
    add  a0, a0, a1
    ret
