main:
    li   a0, 1
    li   a3, 7
    jal  g
    li   a7, 1            # the only register read after the calls is a0
    ecall
    jal  f
    li   a7, 10
    ecall
g:                        # g(a0, a3): a0 == 0 ? f() : a3   (conditional tail call of f)
    beqz a0, f
    mv   a0, a3           # a3 is read on the fall-through path only
    ret
f:
    li   a0, 9
    li   a3, 4            # line 16: never read by anybody
    ret
