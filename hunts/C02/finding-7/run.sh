#!/bin/sh
RVA=${RVA:-/tmp/wt3-C02/target/debug/rva}
D=$(cd "$(dirname "$0")" && pwd)
bad=0
out=$("$RVA" lint "$D/branch_to_function.s" --compact --no-color 2>&1)
echo "$out"
dbg=$("$RVA" lint "$D/branch_to_function.s" --debug --no-color 2>&1)
# the only remaining return instruction is the common exit of f and g
exit_livi=$(echo "$dbg" | grep -A1 '^jalr \[ra\]' | grep LIVI)
echo "live-in of the exit of f/g: $exit_livi"
if echo "$exit_livi" | grep -qw "a3"; then
  echo "VIOLATION: a3 is live at the exit of f (so a3 is an inferred return register of f and g), but no caller reads a3 after a call"; bad=1; fi
if ! echo "$out" | grep -q "Unused value in .* at 16 "; then
  echo "consequence: 'li a3, 4' (line 16), which nobody reads, is not reported as unused"; fi
exit $bad
