#!/bin/sh
RVA=${RVA:-/tmp/wt3-C02/target/debug/rva}
D=$(cd "$(dirname "$0")" && pwd)
bad=0
out=$("$RVA" lint "$D/fallthrough_entry.s" --compact --no-color 2>&1)
echo "--- fallthrough_entry.s"; echo "$out"
if echo "$out" | grep -q "Unused value in .* at 14 "; then
  echo "VIOLATION: 'li a1, 1' (line 14) reported unused, but 'add a0, a0, a1' (next instruction on the fall-through path) reads a1"; bad=1; fi
if echo "$out" | grep -q "Unused value in .* at 2 "; then
  echo "VIOLATION: 'li a0, 1' (line 2) reported unused: a0 is missing from the inferred arguments of inc although inc reads a0 before writing it"; bad=1; fi
out=$("$RVA" lint "$D/loop_to_entry.s" --compact --no-color 2>&1)
echo "--- loop_to_entry.s"; echo "$out"
if echo "$out" | grep -q "Unused value in .* at 13 "; then
  echo "VIOLATION: 'li t2, 7' (line 13) reported unused, but the next loop iteration reads t2"; bad=1; fi
exit $bad
