main:
    li   a0, 1            # line 2: argument of inc (read by "add a0, a0, a1")
    jal  inc
    li   a7, 1
    ecall
    li   a0, 1
    li   a1, 10
    jal  addn
    li   a7, 1
    ecall
    li   a7, 10
    ecall
inc:                      # inc(a0) = addn(a0, 1): sets the default and falls into addn
    li   a1, 1            # line 14: read by the add below
addn:
    add  a0, a0, a1
    ret
