main:
    li   a0, 0
    li   a1, 3
    jal  f
    li   a7, 1
    ecall
    li   a7, 10
    ecall
f:
loop:                     # the loop head is the first instruction of f
    add  a0, a0, t2
    addi a1, a1, -1
    li   t2, 7            # line 13: read by "add a0, a0, t2" in the next iteration
    bnez a1, loop
    ret
