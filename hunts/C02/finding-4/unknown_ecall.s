main:
    li   a1, 11           # service number chosen by the caller: 11 = print character
    jal  service
    li   a7, 10
    ecall
service:                  # service(a1): perform environment call number a1 on the value 65
    mv   a7, a1
    li   a0, 65           # line 8: the operand of the environment call
    ecall                 # a7 = 11 at run time: prints the character in a0
    ret
