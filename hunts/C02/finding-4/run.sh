#!/bin/sh
RVA=${RVA:-/tmp/wt3-C02/target/debug/rva}
D=$(cd "$(dirname "$0")" && pwd)
bad=0
out=$("$RVA" lint "$D/unknown_ecall.s" --compact --no-color 2>&1)
echo "--- unknown_ecall.s"; echo "$out"
if echo "$out" | grep -q "Unused value in .* at 8 "; then
  echo "VIOLATION: 'li a0, 65' (line 8) reported unused, but the ecall on line 9 (a7 = 11 at run time) reads a0"; bad=1; fi
out=$("$RVA" lint "$D/unlisted_ecall.s" --compact --no-color 2>&1)
echo "--- unlisted_ecall.s (secondary: call number known but not in the table; no 'Unknown ecall' is reported either)"; echo "$out"
if echo "$out" | grep -q "Unused value in .* at 5 "; then
  echo "VIOLATION (secondary): 'la a0, msg' (line 5) reported unused before ecall 51"; bad=1; fi
exit $bad
