.data
msg: .string "number?"
.text
main:
    la   a0, msg          # line 5: operand of service 51 (InputDialogInt in RARS: a0 = address of the message)
    li   a7, 51
    ecall
    li   a7, 10
    ecall
