#!/bin/sh
RVA=${RVA:-/tmp/wt3-C02/target/debug/rva}
D=$(cd "$(dirname "$0")" && pwd)
bad=0
out=$("$RVA" lint "$D/aliased_slot.s" --compact --no-color 2>&1)
echo "$out"
if echo "$out" | grep -q "Unused value in .* at 8 "; then
  echo "VIOLATION: 'li a0, 42' (line 8) reported unused, but the ecall on line 10 runs with a7 = 1 and prints a0"; bad=1; fi
exit $bad
