main:
    addi sp, sp, -4
    li   t1, 10
    sw   t1, 0(sp)        # slot = 10
    mv   s0, sp           # frame pointer
    li   t2, 1
    sw   t2, 0(s0)        # slot = 1, written through the frame pointer
    li   a0, 42           # line 8: operand of the environment call below
    lw   a7, 0(sp)        # a7 = 1 (print integer); the analyzer believes 10 (exit)
    ecall                 # prints 42
    li   a0, 0            # line 11
    li   a7, 93           # line 12
    ecall                 # exit(0)
