main:
    li   a0, 5            # line 2: read by "mv a1, a0" at the jump target
    la   t0, target       # line 3: read by the very next instruction
    jr   t0               # line 4: jalr x0, t0, 0
target:
    mv   a1, a0
    li   a0, 1
    li   a7, 93
    ecall
