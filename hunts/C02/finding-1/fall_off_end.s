main:
    li   a0, 1
    li   a7, 1
    ecall
    li   t0, 5
    add  t1, t0, t0       # line 6: t1 is read by the next instruction
    sw   t1, 0(gp)        # line 7: last instruction, the program drops off the bottom
