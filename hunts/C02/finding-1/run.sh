#!/bin/sh
# Exits non-zero when the violation is present.
RVA=${RVA:-/tmp/wt3-C02/target/debug/rva}
D=$(cd "$(dirname "$0")" && pwd)
bad=0
out=$("$RVA" lint "$D/indirect_jump.s" --compact --no-color 2>&1)
echo "--- indirect_jump.s"; echo "$out"
if echo "$out" | grep -q "Unused value in .* at 3 "; then
  echo "VIOLATION: 'la t0, target' (line 3) reported unused, but 'jr t0' on line 4 reads t0"; bad=1; fi
if echo "$out" | grep -q "Unused value in .* at 2 "; then
  echo "VIOLATION: 'li a0, 5' (line 2) reported unused, but 'mv a1, a0' at the jump target reads a0"; bad=1; fi
out=$("$RVA" lint "$D/fall_off_end.s" --compact --no-color 2>&1)
echo "--- fall_off_end.s"; echo "$out"
if echo "$out" | grep -q "Unused value in .* at 6 "; then
  echo "VIOLATION: 'add t1, t0, t0' (line 6) reported unused, but 'sw t1, 0(gp)' on line 7 reads t1"; bad=1; fi
exit $bad
