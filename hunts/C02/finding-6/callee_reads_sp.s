main:
    addi sp, sp, -16      # line 2: main reserves 16 bytes; f builds its frame below them
    jal  f
    li   a7, 10
    ecall
f:
    addi sp, sp, -4       # reads sp
    sw   ra, 0(sp)        # reads sp
    lw   ra, 0(sp)
    addi sp, sp, 4
    ret
