.data
table: .word 1, 2, 3
.text
main:
    la   gp, table        # line 5: gp is a global, preserved by every call
    jal  f
    li   a7, 1
    ecall
    li   a7, 10
    ecall
f:
    lw   a0, 4(gp)        # reads gp
    ret
