#!/bin/sh
RVA=${RVA:-/tmp/wt3-C02/target/debug/rva}
D=$(cd "$(dirname "$0")" && pwd)
bad=0
out=$("$RVA" lint "$D/callee_reads_sp.s" --compact --no-color 2>&1)
echo "--- callee_reads_sp.s"; echo "$out"
if echo "$out" | grep -q "Unused value in .* at 2 "; then
  echo "VIOLATION: 'addi sp, sp, -16' (line 2) reported unused, but f reads sp (lines 7 and 8)"; bad=1; fi
out=$("$RVA" lint "$D/callee_reads_gp.s" --compact --no-color 2>&1)
echo "--- callee_reads_gp.s"; echo "$out"
if echo "$out" | grep -q "Unused value in .* at 5 "; then
  echo "VIOLATION: 'la gp, table' (line 5) reported unused, but f reads gp (line 12)"; bad=1; fi
exit $bad
