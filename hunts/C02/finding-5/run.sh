#!/bin/sh
RVA=${RVA:-/tmp/wt3-C02/target/debug/rva}
D=$(cd "$(dirname "$0")" && pwd)
bad=0
out=$("$RVA" lint "$D/two_shared_exits.s" --compact --no-color 2>&1)
echo "$out"
if echo "$out" | grep -q "Unused value in .* at 18 "; then
  echo "VIOLATION: 'li a0, 2' (line 18) reported unused, but main -> pick -> two_body -> ret -> 'ecall' (print a0) reads it"; bad=1; fi
exit $bad
