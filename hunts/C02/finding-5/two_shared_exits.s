main:
    jal  one
    jal  two
    li   a0, 0
    jal  pick             # pick(0) returns 2 ...
    li   a7, 1            # ... which is printed here: a0 is read after the call
    ecall
    li   a7, 10
    ecall
one:
    li   t0, 0
one_body:
    li   a0, 1
    ret
two:
    li   t0, 0
two_body:
    li   a0, 2            # line 18: the value pick returns when a0 == 0
    ret
pick:                     # pick(a0): a0 == 0 ? 2 : 1, sharing the tails of one and two
    beqz a0, two_body
    j    one_body
