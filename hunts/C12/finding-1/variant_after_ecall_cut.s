main:
    bge s1, a1, L4
    li a7, 10
    ecall
f0:
    bge t2, t2, main
    ret
L4:
    jal zero, f0
