main:
    beq s1, a1, L4
    ret
f0:
    beq t2, t2, main
    ret
L4:
    j f0
