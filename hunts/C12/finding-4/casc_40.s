main:
    j B40
B0: j go
B1: j B0
B2: j B1
B3: j B2
B4: j B3
B5: j B4
B6: j B5
B7: j B6
B8: j B7
B9: j B8
B10: j B9
B11: j B10
B12: j B11
B13: j B12
B14: j B13
B15: j B14
B16: j B15
B17: j B16
B18: j B17
B19: j B18
B20: j B19
B21: j B20
B22: j B21
B23: j B22
B24: j B23
B25: j B24
B26: j B25
B27: j B26
B28: j B27
B29: j B28
B30: j B29
B31: j B30
B32: j B31
B33: j B32
B34: j B33
B35: j B34
B36: j B35
B37: j B36
B38: j B37
B39: j B38
B40: j B39
go:
    li a7, 93
    beq t0, t2, A2
    beq t0, t1, A4
    beq t0, t2, A6
    beq t0, t1, A8
    beq t0, t2, A10
    beq t0, t1, A12
    beq t0, t2, A14
    beq t0, t1, A16
    beq t0, t2, A18
    beq t0, t1, A20
    beq t0, t2, A22
    beq t0, t1, A24
    beq t0, t2, A26
    beq t0, t1, A28
    beq t0, t2, A30
    beq t0, t1, A32
    beq t0, t2, A34
    beq t0, t1, A36
    beq t0, t2, A38
    beq t0, t1, A40
    li a7, 10
    beq t0, t1, A1
    beq t0, t2, A3
    beq t0, t1, A5
    beq t0, t2, A7
    beq t0, t1, A9
    beq t0, t2, A11
    beq t0, t1, A13
    beq t0, t2, A15
    beq t0, t1, A17
    beq t0, t2, A19
    beq t0, t1, A21
    beq t0, t2, A23
    beq t0, t1, A25
    beq t0, t2, A27
    beq t0, t1, A29
    beq t0, t2, A31
    beq t0, t1, A33
    beq t0, t2, A35
    beq t0, t1, A37
    beq t0, t2, A39
    li a7, 93
    ecall
A1: ecall
A2: ecall
A3: ecall
A4: ecall
A5: ecall
A6: ecall
A7: ecall
A8: ecall
A9: ecall
A10: ecall
A11: ecall
A12: ecall
A13: ecall
A14: ecall
A15: ecall
A16: ecall
A17: ecall
A18: ecall
A19: ecall
A20: ecall
A21: ecall
A22: ecall
A23: ecall
A24: ecall
A25: ecall
A26: ecall
A27: ecall
A28: ecall
A29: ecall
A30: ecall
A31: ecall
A32: ecall
A33: ecall
A34: ecall
A35: ecall
A36: ecall
A37: ecall
A38: ecall
A39: ecall
A40: ecall
