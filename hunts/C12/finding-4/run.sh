#!/bin/sh
# Finding 4: the pipeline needs a number of value-analysis sweeps that grows
# quadratically with the program size (Manager::gen_full_cfg restarts the value
# analysis from scratch once per exit ecall that gets revealed).
HERE=$(cd "$(dirname "$0")" && pwd)
export CARGO_TARGET_DIR=/tmp/hunt-C12/target-f4
(cd "$HERE/checker" && cargo build --offline >"$HERE/build.log" 2>&1) || { echo "build failed, see build.log"; exit 2; }
"$CARGO_TARGET_DIR/debug/c12sweeps" "$HERE/casc_20.s" "$HERE/casc_40.s" "$HERE/casc_80.s"
rc=$?
if [ -n "$SLOW" ]; then
    # optional: wall clock of the CLI on the 488-line variant (minutes in a debug build)
    python3 "$HERE/mkcascade.py" 160 160 > "$HERE/casc_160.s"
    echo "timing rva lint casc_160.s (488 lines) ..."
    ( time timeout 900 /tmp/wt3-C12/target/debug/rva lint --compact --no-color "$HERE/casc_160.s" >/dev/null ) 2>&1 | grep real
fi
exit $rc
