main:
    j B20
B0: j go
B1: j B0
B2: j B1
B3: j B2
B4: j B3
B5: j B4
B6: j B5
B7: j B6
B8: j B7
B9: j B8
B10: j B9
B11: j B10
B12: j B11
B13: j B12
B14: j B13
B15: j B14
B16: j B15
B17: j B16
B18: j B17
B19: j B18
B20: j B19
go:
    li a7, 93
    beq t0, t2, A2
    beq t0, t1, A4
    beq t0, t2, A6
    beq t0, t1, A8
    beq t0, t2, A10
    beq t0, t1, A12
    beq t0, t2, A14
    beq t0, t1, A16
    beq t0, t2, A18
    beq t0, t1, A20
    li a7, 10
    beq t0, t1, A1
    beq t0, t2, A3
    beq t0, t1, A5
    beq t0, t2, A7
    beq t0, t1, A9
    beq t0, t2, A11
    beq t0, t1, A13
    beq t0, t2, A15
    beq t0, t1, A17
    beq t0, t2, A19
    li a7, 93
    ecall
A1: ecall
A2: ecall
A3: ecall
A4: ecall
A5: ecall
A6: ecall
A7: ecall
A8: ecall
A9: ecall
A10: ecall
A11: ecall
A12: ecall
A13: ecall
A14: ecall
A15: ecall
A16: ecall
A17: ecall
A18: ecall
A19: ecall
A20: ecall
