main:
    j B80
B0: j go
B1: j B0
B2: j B1
B3: j B2
B4: j B3
B5: j B4
B6: j B5
B7: j B6
B8: j B7
B9: j B8
B10: j B9
B11: j B10
B12: j B11
B13: j B12
B14: j B13
B15: j B14
B16: j B15
B17: j B16
B18: j B17
B19: j B18
B20: j B19
B21: j B20
B22: j B21
B23: j B22
B24: j B23
B25: j B24
B26: j B25
B27: j B26
B28: j B27
B29: j B28
B30: j B29
B31: j B30
B32: j B31
B33: j B32
B34: j B33
B35: j B34
B36: j B35
B37: j B36
B38: j B37
B39: j B38
B40: j B39
B41: j B40
B42: j B41
B43: j B42
B44: j B43
B45: j B44
B46: j B45
B47: j B46
B48: j B47
B49: j B48
B50: j B49
B51: j B50
B52: j B51
B53: j B52
B54: j B53
B55: j B54
B56: j B55
B57: j B56
B58: j B57
B59: j B58
B60: j B59
B61: j B60
B62: j B61
B63: j B62
B64: j B63
B65: j B64
B66: j B65
B67: j B66
B68: j B67
B69: j B68
B70: j B69
B71: j B70
B72: j B71
B73: j B72
B74: j B73
B75: j B74
B76: j B75
B77: j B76
B78: j B77
B79: j B78
B80: j B79
go:
    li a7, 93
    beq t0, t2, A2
    beq t0, t1, A4
    beq t0, t2, A6
    beq t0, t1, A8
    beq t0, t2, A10
    beq t0, t1, A12
    beq t0, t2, A14
    beq t0, t1, A16
    beq t0, t2, A18
    beq t0, t1, A20
    beq t0, t2, A22
    beq t0, t1, A24
    beq t0, t2, A26
    beq t0, t1, A28
    beq t0, t2, A30
    beq t0, t1, A32
    beq t0, t2, A34
    beq t0, t1, A36
    beq t0, t2, A38
    beq t0, t1, A40
    beq t0, t2, A42
    beq t0, t1, A44
    beq t0, t2, A46
    beq t0, t1, A48
    beq t0, t2, A50
    beq t0, t1, A52
    beq t0, t2, A54
    beq t0, t1, A56
    beq t0, t2, A58
    beq t0, t1, A60
    beq t0, t2, A62
    beq t0, t1, A64
    beq t0, t2, A66
    beq t0, t1, A68
    beq t0, t2, A70
    beq t0, t1, A72
    beq t0, t2, A74
    beq t0, t1, A76
    beq t0, t2, A78
    beq t0, t1, A80
    li a7, 10
    beq t0, t1, A1
    beq t0, t2, A3
    beq t0, t1, A5
    beq t0, t2, A7
    beq t0, t1, A9
    beq t0, t2, A11
    beq t0, t1, A13
    beq t0, t2, A15
    beq t0, t1, A17
    beq t0, t2, A19
    beq t0, t1, A21
    beq t0, t2, A23
    beq t0, t1, A25
    beq t0, t2, A27
    beq t0, t1, A29
    beq t0, t2, A31
    beq t0, t1, A33
    beq t0, t2, A35
    beq t0, t1, A37
    beq t0, t2, A39
    beq t0, t1, A41
    beq t0, t2, A43
    beq t0, t1, A45
    beq t0, t2, A47
    beq t0, t1, A49
    beq t0, t2, A51
    beq t0, t1, A53
    beq t0, t2, A55
    beq t0, t1, A57
    beq t0, t2, A59
    beq t0, t1, A61
    beq t0, t2, A63
    beq t0, t1, A65
    beq t0, t2, A67
    beq t0, t1, A69
    beq t0, t2, A71
    beq t0, t1, A73
    beq t0, t2, A75
    beq t0, t1, A77
    beq t0, t2, A79
    li a7, 93
    ecall
A1: ecall
A2: ecall
A3: ecall
A4: ecall
A5: ecall
A6: ecall
A7: ecall
A8: ecall
A9: ecall
A10: ecall
A11: ecall
A12: ecall
A13: ecall
A14: ecall
A15: ecall
A16: ecall
A17: ecall
A18: ecall
A19: ecall
A20: ecall
A21: ecall
A22: ecall
A23: ecall
A24: ecall
A25: ecall
A26: ecall
A27: ecall
A28: ecall
A29: ecall
A30: ecall
A31: ecall
A32: ecall
A33: ecall
A34: ecall
A35: ecall
A36: ecall
A37: ecall
A38: ecall
A39: ecall
A40: ecall
A41: ecall
A42: ecall
A43: ecall
A44: ecall
A45: ecall
A46: ecall
A47: ecall
A48: ecall
A49: ecall
A50: ecall
A51: ecall
A52: ecall
A53: ecall
A54: ecall
A55: ecall
A56: ecall
A57: ecall
A58: ecall
A59: ecall
A60: ecall
A61: ecall
A62: ecall
A63: ecall
A64: ecall
A65: ecall
A66: ecall
A67: ecall
A68: ecall
A69: ecall
A70: ecall
A71: ecall
A72: ecall
A73: ecall
A74: ecall
A75: ecall
A76: ecall
A77: ecall
A78: ecall
A79: ecall
A80: ecall
