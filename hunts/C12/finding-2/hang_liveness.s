main:
    li t1, 0
L3: nop
    nop
L0: beq t0, s0, L3
    jal t1, L0
