#!/bin/sh
# Finding 2: LivenessPass (u_def part) never reaches a fixed point (oscillates forever).
# Exits non-zero when the violation is present.
HERE=$(cd "$(dirname "$0")" && pwd)
RVA=/tmp/wt3-C12/target/debug/rva
[ -x "$RVA" ] || (cd /tmp/wt3-C12 && cargo build --workspace --offline >/dev/null 2>&1)
LIMIT=${LIMIT:-20}
timeout "$LIMIT" "$RVA" lint --compact --no-color "$HERE/hang_liveness.s"
rc=$?
if [ "$rc" -eq 124 ]; then
    echo "VIOLATION: 'rva lint hang_liveness.s' (6 CFG nodes) did not terminate within ${LIMIT}s:"
    echo "           the liveness analysis sweeps forever (no bound in the program size)."
    exit 1
fi
echo "no violation observed: rva terminated with exit code $rc"
exit 0
