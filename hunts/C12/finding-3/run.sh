#!/bin/sh
# Finding 3: the finished CFG is not a fixed point of LivenessPass - running the
# liveness analysis once more on it never terminates, although the standard
# pipeline (and `rva lint`) finishes normally on the same file.
HERE=$(cd "$(dirname "$0")" && pwd)
export CARGO_TARGET_DIR=/tmp/hunt-C12/target-f3
(cd "$HERE/checker" && cargo build --offline >"$HERE/build.log" 2>&1) || { echo "build failed, see build.log"; exit 2; }
RVA=/tmp/wt3-C12/target/debug/rva
if [ -x "$RVA" ]; then
    echo "--- rva lint (terminates):"
    timeout 20 "$RVA" lint --compact --no-color "$HERE/rerun_hang.s"; echo "rva exit code: $?"
fi
echo "--- pipeline + one extra LivenessPass run:"
"$CARGO_TARGET_DIR/debug/c12rerun" "$HERE/rerun_hang.s" 15
