main:
    j start
f:
    li a0, 1
    ret
start:
    jal f
    nop
L3: nop
    nop
L0: beq t0, s0, L3
    jal a0, L0
