#!/bin/sh
# Finding 4: the one-operand form "jalr rs" (= jalr ra, rs, 0) is decoded by
# *consuming* the token that follows rs.  At the end of a file without a final
# newline there is no such token, and the instruction is rejected
# ("Unexpected end of file") although every other instruction is accepted
# there.  For the same reason any stray token after rs is silently swallowed.
cd "$(dirname "$0")" || exit 2
RVA=${RVA:-/tmp/wt3-C08/target/debug/rva}
bad=0
strip() { sed 's#/[^ ]*/##'; }   # drop directory and file name differences
a=$("$RVA" lint last_line_newline.s --no-color --compact 2>&1 | sed 's/last_line_newline/F/' | strip)
b=$("$RVA" lint last_line_no_newline.s --no-color --compact 2>&1 | sed 's/last_line_no_newline/F/' | strip)
echo "--- file ending in 'jalr t0' + newline:"; echo "$a"
echo "--- same file ending in 'jalr t0' (no final newline):"; echo "$b"
if [ "$a" != "$b" ] && echo "$b" | grep -q "Unexpected end of file"; then
    echo "VIOLATION: 'jalr t0' as the last line without a newline is rejected; no jalr node is built"
    bad=1
fi
c=$("$RVA" lint jr_no_newline.s --no-color --compact 2>&1)
if echo "$c" | grep -q "Unexpected end of file"; then :; else
    echo "(control: the same file ending in 'jr t0' without newline is accepted)"
fi
d=$("$RVA" lint with_newline.s --no-color --compact 2>&1 | sed 's/with_newline/F/' | strip)
e=$("$RVA" lint swallowed_operand.s --no-color --compact 2>&1 | sed 's/swallowed_operand/F/' | strip)
echo "--- 'jalr t0, no_such_label':"; echo "$e"
if [ "$d" = "$e" ]; then
    echo "VIOLATION (same cause): 'jalr t0, no_such_label' is accepted without any diagnostic, the second operand is thrown away (decoded as jalr ra, t0, 0)"
    bad=1
fi
exit $bad
