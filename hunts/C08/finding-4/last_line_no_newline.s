main:
    la t0, main
    jalr t0