main:
    la t0, helper
    jalr t0
    li a7, 10
    ecall
helper:
    li a0, 1
    ret
