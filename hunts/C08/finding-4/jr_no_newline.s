main:
    la t0, main
    jr t0