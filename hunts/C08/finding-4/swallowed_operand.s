main:
    la t0, helper
    jalr t0, no_such_label
    li a7, 10
    ecall
helper:
    li a0, 1
    ret
