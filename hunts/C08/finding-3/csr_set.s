main:
    csrwi uscratch, 5
    csrsi uscratch, 2
    csrr a0, uscratch
    li a7, 1
    ecall
    li a7, 10
    ecall
