#!/bin/sh
# Finding 3: csrrs/csrrc/csrrsi/csrrci (and the pseudos csrs/csrc/csrsi/csrci)
# are not said to write the CSR: a constant recorded for the CSR by an earlier
# csrrw/csrrwi survives them and is handed to a later CSR read.
cd "$(dirname "$0")" || exit 2
RVA=${RVA:-/tmp/wt3-C08/target/debug/rva}
bad=0
out1=$("$RVA" lint csr_set.s --no-color --debug 2>&1)
echo "--- csrwi uscratch,5 ; csrsi uscratch,2 ; csrr a0,uscratch   (a0 is 7 on a machine)"
echo "$out1" | grep -A3 "^csrr" | grep -E "^csrr|VALO"
if echo "$out1" | grep -A3 "^csrrs a0 <- 64 <- zero" | grep -q "a0: 5"; then
    echo "VIOLATION: after csrsi uscratch, 2 the analyzer still believes uscratch == 5 and a0 == 5 (should be 7 or unknown)"
    bad=1
fi
out2=$("$RVA" lint csr_clear_reg.s --no-color --debug 2>&1)
echo "--- csrwi uscratch,7 ; li t0,3 ; csrrc zero,uscratch,t0 ; csrr a0,uscratch   (a0 is 4 on a machine)"
echo "$out2" | grep -A3 "^csrr" | grep -E "^csrr|VALO"
if echo "$out2" | grep -A3 "^csrrs a0 <- 64 <- zero" | grep -q "a0: 7"; then
    echo "VIOLATION: after csrrc zero, uscratch, t0 (t0 = 3) the analyzer still believes uscratch == 7 and a0 == 7 (should be 4 or unknown)"
    bad=1
fi
exit $bad
