main:
    csrwi uscratch, 7
    li t0, 3
    csrrc zero, uscratch, t0
    csrr a0, uscratch
    li a7, 1
    ecall
    li a7, 10
    ecall
