main:
    li a0, 010
    li a7, 1
    ecall
    li a7, 012
    ecall
    li a0, 0
    li a7, 10
    ecall
