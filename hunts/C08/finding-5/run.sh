#!/bin/sh
# Finding 5: integer literals with a leading 0 are octal in RISC-V assembly
# (GNU as, and RARS: Integer.decode).  The analyzer reads them as decimal.
cd "$(dirname "$0")" || exit 2
RVA=${RVA:-/tmp/wt3-C08/target/debug/rva}
bad=0
out=$("$RVA" lint octal.s --no-color --debug 2>&1)
echo "$out" | grep -E "^addi"
if echo "$out" | grep -q "^addi a0 <- zero, 10$"; then
    echo "VIOLATION: 'li a0, 010' is decoded with immediate 10 (assemblers: 8)"
    bad=1
fi
if echo "$out" | grep -q "^addi a7 <- zero, 12$"; then
    echo "VIOLATION: 'li a7, 012' is decoded with immediate 12 (assemblers: 10 = the exit service)"
    bad=1
fi
echo "--- diagnostics:"
"$RVA" lint octal.s --no-color --compact 2>&1
echo "(with a7 = 012 = 10 the second ecall is 'exit' and the last three lines are unreachable; the analyzer reports nothing of the kind)"
exit $bad
