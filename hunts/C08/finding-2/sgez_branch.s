main:
    li t0, 5
    sgez t0, done
    li a0, 1
done:
    li a7, 10
    ecall
