#!/bin/sh
# Finding 2: the supported pseudo-instruction sgez ("set if >= zero": rd, rs)
# is decoded as a conditional branch "bge x0, rs, label" (which is blez).
cd "$(dirname "$0")" || exit 2
RVA=${RVA:-/tmp/wt3-C08/target/debug/rva}
bad=0
out1=$("$RVA" lint sgez_branch.s --no-color --debug 2>&1)
echo "--- sgez t0, done:"
echo "$out1" | grep -E "^(bge|sgez|Error)" 
if echo "$out1" | grep -q "^bge zero--t0, \[done\]"; then
    echo "VIOLATION: 'sgez t0, done' is accepted and built as the branch 'bge zero, t0, done' (= blez t0, done): no destination register, a branch target instead"
    bad=1
fi
out2=$("$RVA" lint sgez_set.s --no-color --compact 2>&1)
echo "--- sgez t1, t2 (the set-instruction form, slt t1,t2,x0 ; xori t1,t1,1):"
echo "$out2"
if echo "$out2" | grep -q "Expected LABEL"; then
    echo "VIOLATION: the set form 'sgez rd, rs' is rejected (a label is demanded)"
    bad=1
fi
exit $bad
