main:
    li t2, 5
    sgez t1, t2
    mv a0, t1
    li a7, 1
    ecall
    li a7, 10
    ecall
