#!/bin/sh
# Finding 1: auipc is decoded with the operand shape "rd, rs1, imm" (like addi)
# instead of the architectural "rd, imm20".
cd "$(dirname "$0")" || exit 2
RVA=${RVA:-/tmp/wt3-C08/target/debug/rva}
bad=0
out1=$("$RVA" lint auipc_official.s --no-color --compact 2>&1)
echo "--- auipc t0, 0 (the only form the ISA manual defines):"
echo "$out1"
if echo "$out1" | grep -q "Expected REGISTER"; then
    echo "VIOLATION: the official form 'auipc rd, imm' is rejected (a register is demanded as 2nd operand)"
    bad=1
fi
out2=$("$RVA" lint auipc_three_operands.s --no-color --debug 2>&1)
echo "--- auipc t0, t1, 0 (no such form exists):"
echo "$out2" | grep -A2 "^auipc"
if echo "$out2" | grep -q "^auipc t0 <- t1, 0" && ! echo "$out2" | grep -q "^Error: Expected"; then
    echo "VIOLATION: 'auipc t0, t1, 0' is accepted and decoded with source register t1 (auipc reads no integer register)"
    if echo "$out2" | grep -A1 "^auipc t0 <- t1, 0" | grep -q "LIVI | \[t1\]"; then
        echo "           liveness: t1 is live into the auipc (LIVI = [t1]), so 'li t1, 7' is considered used"
    fi
    bad=1
fi
exit $bad
