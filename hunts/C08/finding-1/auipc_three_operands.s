main:
    li t1, 7
    auipc t0, t1, 0
    li a7, 10
    ecall
