main:
    auipc t0, 0
    li a7, 10
    ecall
